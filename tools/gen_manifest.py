#!/usr/bin/env python3
"""Regenerates /verif/MANIFEST.json from the table below and the rule registry of fgcheck (-list)."""
import json, subprocess, sys

CLAIMS = {
 # id: (level text, level note, technique, design ref)
 "C07": ("Structural necessary conditions of 'never io.EOF for data that fails its checksum', decided for every path of gzip.Reader.Read and zlib.reader.Read: EOF-capable returns are dominated by the equal edges of comparisons covering the whole trailer; the returned count is the inflater's; digest/size are updated with exactly the bytes handed out; EOFs inside a member are converted. Not decided: checksum strength, inflater correctness.",
         "go/ssa value flow + dominators are trusted to represent the source; std library calls are classified by callee, not analysed.",
         "SSA value-flow with branch-fact refinement, dominance over CFG edges, constant slice-bound tiling", "DESIGN.md 4/C07"),
 "C08": ("Member sequencing of gzip.Reader decided structurally: one source object shared by header parser, inflater and trailer reader; next header only after a verified trailer and only in multistream mode; single-member mode returns io.EOF without touching the source; digest/size restart. Header and trailer bytes are taken from the (possibly tiny, caller-supplied) bufio.Reader only through capacity-independent calls (R08.3). Exact stream-end positioning (the runtime part) is not decided here. The sticky io.EOF of a finished member is cleared only behind the multistream edge (R08.4).",
         "same trusted base as C07; depends on C05 for exact consumption.",
         "SSA access-path identity of the source field, dominating branch facts, barrier reachability", "DESIGN.md 4/C08"),
 "C01": ("Round-trip equality is NOT decided (a relation between runtime byte strings). Six encoder-side necessary conditions are decided for all inputs and both arms: table/constant agreement with the decoder and RFC 1951, code-length limits 15/7, every emitted token counted in the histogram on every path, block framing (alignment, end-of-block, final flag, empty-final-block shortcut only when nothing was accumulated), delegation discipline, and literal-from-current-offset consistency in the Go finder. Also: the Huffman generators decide a symbol's use on the full-width frequency (R01.7), and a byte encoder that appends the end-of-block code itself never returns early with everything consumed (R01.8, linear forms). In the assembly match finders every computed distance symbol is counted in the distance histogram before the register dies (R01.9).",
         "RFC 1951 constants embedded in the checker are the oracle for tables; assembly finders are covered only through C18/C19 clauses.",
         "constant/table agreement from go/types, barrier reachability with loop targets, phi-pair consistency, dominating facts", "DESIGN.md 4/C01"),
 "C02": ("Decode equality is NOT decided. Decided: the precomputed fixed-Huffman lookup tables are validated exhaustively (4096 short + reachable long + 1024 distance entries) against RFC 1951 in the entry format the decode loops define; RFC base/extra tables; slack-constant relations the fast paths rely on; assembly layout agreement; boundary-test-before-store in the dynamic header parser; whole-table installation for fixed blocks; index-to-symbol mapping in all sibling table builders; builtin copy inside one buffer only under a comparison implying disjointness. Also: every end-of-block handler decides the next phase by the final flag (R02.9, sibling agreement); stored blocks deduct what they wrote from litBlockLength before returning and report 'unfinished' only with phase = phaseLitBlock (R02.10); symbols of packed multi-symbol entries provably fit their bit fields below the large-code flag (R02.11, bounds from dominating comparisons).",
         "the entry format is the one read off decode.go / huffcode.go; RFC 1951 fixed code embedded in the checker.",
         "exhaustive enumeration of a finite constant table against an embedded reference decoder; constant relations; per-iteration barrier reachability", "DESIGN.md 4/C02"),
 "C04": ("Schedule independence is NOT decided. Decided: the rollback discipline that makes decoding restartable - end-of-input exits of the Go decode loop hand back a consistent unconsumed (bits,bitsLen,input) triple and an output position from before the symbol; bit-consuming header steps are followed by an end-of-input test before success; rollbacks clear the overflow carry; readHeader's staging edge restores state and accounts for the staged bytes; input is acquired non-destructively; header scratch counters are cleared on every parse attempt. In the header parser no 'invalid block' verdict follows a bit-taking call without the out-of-input test (R04.7), a code-length slot is judged only once the cursor has passed it (R04.8), and the re-slice after a staged header has the right linear form (R04.9).",
         "phi roles in the exit block are identified by variable name (SSA comments) with a type-based fallback; infeasible-path reasoning is avoided by restricting R04.3 to rollback edges.",
         "SSA phi-edge analysis at the loop exit, backward slices bounded by the loop header, barrier reachability, exact shape check of the staging edge", "DESIGN.md 4/C04"),
 "C06": ("Payload equality is NOT decided. Decided: RFC 1950/1952 constants on both sides, flag bits and the conditions under which flag and field body are written agree, field order writer vs reader, byte orders and trailer layout, checksum/size computed over exactly the slice handed to the compressor on every success path, level range. Uint32 container fields are never reinterpreted as signed 32-bit values (R06.6).",
         "RFC constants embedded in the checker.",
         "constant evaluation via go/types, dominating-fact comparison between sibling sites, dominance order, SSA operand identity", "DESIGN.md 4/C06"),
 "C18": ("Go/assembly semantic equivalence is NOT decided. Decided: layout agreement of all 480 typed memory operands of the 17 assembly routines with the Go structs (field, element boundary, width, scale, confirmed field sets and element indexes, write summaries), frame agreement, total and constant errno mapping, dispatch totality, sibling declarations in both configurations, state write-back on every RET path, CPUID masks vs psABI levels and feature gating of every routine, validation of every lookup-table load before bits are consumed, net output-cursor movement at every exit of the assembly decode loop, and empty-remainder guards of chained encoders. The jump into the assembly's look-back exit is a strict comparison like the Go loop's (R18.12). The generated assembly match finders agree in their census of histogram increments and token stores (R18.13).",
         "the checker's own Plan 9 assembly front end (parser + register dataflow); an unknown mnemonic or operand form fails the check; types.Sizes for amd64.",
         "assembly operand resolution against types.Sizes, constant propagation to result slots, CFG path checks in assembly, instruction-to-feature-level table vs Go guard lower bounds", "DESIGN.md 4/C18"),
 "C19": ("Decided: the window size chosen by each constructor reaches every match finder unchanged (constants 4096/32768, TrailingZeros level, 1<<level history size), the Go finder emits a match only under a comparison that normalises to 1 <= dist <= historySize on the encoded distance, and the assembly variant selected per window level masks distances with window-1 (mask read from instructions). 16-bit position wrap and assembly candidate arithmetic are not decided. The Go finder's history size is followed through helper parameters to windowLevel; the 4 KiB constructor delegates to compress/flate only for NoCompression (R19.5).",
         "getDistSymbol maps the tested distance to the emitted symbol (arithmetic not checked).",
         "constant call arguments, comparison normal forms over dominating facts, assembly immediate extraction", "DESIGN.md 4/C19"),
 "C03": ("Four structural necessary conditions of rejecting malformed input, decided for all inputs at once: lookup-table builders clear what they do not assign (short table, copy prefix, long-table groups), internal outcomes are exhaustively classified, the assembly loop's errno mapping is total and precedes any fallback, step's error vocabulary is closed, Kraft sums are accumulated in >= 32 bits, and the distance lookup is bounded by the maximum literal/length symbol. Termination, panic freedom and the accept/reject arithmetic are not decided. Also: every Kraft sum is tested for completeness wherever it is tested for over-subscription (R03.8) and the header parser succeeds only behind 'cursor <= declared count' (R03.9). The flate Reader's Read records and returns only what its step reports (R03.10).",
         "go/ssa dominators and CFG represent the source; assembly clauses come from the checker's own Plan 9 assembly front end.",
         "sibling-deviance rule over table builders (barrier reachability with loop-aware zero stores), call-graph closure of returned sentinels, edge-pruned path search on errno, value-source closure", "DESIGN.md 4/C03"),
 "C05": ("Decides which call sites may put a private read-ahead buffer in front of a caller's reader (type-assertion facts for *bufio.Reader and io.ByteReader), the linear normal form and guard of the give-back arithmetic, one-source-field for zlib, and that held look-ahead bits are never discarded by constant stores. Five ByteReader wrapping sites are genuine known findings (listed by key). The runtime byte count at stream end is not decided. A Reader re-targets only a bufio.Reader it allocated itself (R05.5 = R13.4).",
         "bufio.NewReader re-wraps readers below the default size (std contract); known findings are matched by rule+construct key only.",
         "dominating type-assertion facts, linear normalisation of SSA integer expressions, access-path identity", "DESIGN.md 4/C05"),
 "C09": ("Decides that the compression trigger and all state updates of Accumulate depend only on accumulated state (data is used only as copy source), that Write calls Accumulate only with bytes left and Compress only under the trigger, and that the trigger fires exactly at the bound of the copy (linear forms). Everything inside the compressors is not decided.",
         "same trusted base; clause is necessary, not sufficient, for byte-identical output across partitions.",
         "use-closure of the data parameter, control-dependence of the Compress call, dominating facts", "DESIGN.md 4/C09"),
 "C10": ("Block-framing discipline decided on every path of both accelerated compressors in both arms: alignment only under the final flag or inside stored-block writers, an end-of-block emission after every header, the order encode -> empty stored block -> destination write in Flush, constant flush/final flags, marker bytes and header bits, the empty final block only under the final flag, and a block always encoded when flush is requested. Bit-exact block contents are not decided. An encoder that writes the end-of-block code itself returns early only with at least one byte left (R10.8). With a flush requested the block compressor returns success only behind 'input cursor == end' (R10.9). Run lengths of the header encoder never pass through an 8-bit value (R10.10).",
         "encoders called in the loop emit the end-of-block code when they consume the last byte (checked only as 'contain litCode(256)').",
         "dominating-fact identity on the eos value, barrier reachability with provably-entered loops, constant operand tables", "DESIGN.md 4/C10"),
 "C11": ("Decides bounded demand on the source (Peek argument normal forms, no ReadFull in the inflater, fixed-size container reads) and that decoded data is delivered before errors/EOF (replay return behind the nothing-pending edge; EOF produced only when drained). No Peek that can wait is reachable in phase phaseStreamEnd (correlated-branch search over step and its callers, R11.3), and every path from a decode call to a return publishes writePos (R11.4). Progress of the decode loops on partial input is not decided. Every waiting Peek is behind the 'decoder ran out of input' flag (R11.5); an incomplete header is never judged (R11.6 = R04.7).",
         "bufio.Reader.Peek(n) returns as soon as n bytes are buffered (std contract).",
         "linear normal forms of SSA integer expressions, dominating facts", "DESIGN.md 4/C11"),
 "C12": ("Reset completeness for the nine writer-side stateful types: every access path any function may write through a pointer to the object (field-effect summaries closed over resolved calls; assembly by confirmed write sets) is re-initialised by Reset on every success path, or is scratch (table with reasons), or a nil-guarded lazy init whose object Reset resets. Equality of reset values with constructor values is not decided. A buffer narrowed for a step is restored before every return (R12.3); the scratch claim for huffmanOnly.hist is checked: counting starts from cleared counters (R12.4).",
         "scratch-table lines are justified by reading; callee effects are may-effects; must-coverage is decided in the Reset method itself.",
         "interprocedural field-effect summaries + barrier reachability in Reset (loop-aware), type-flow resolution of interface calls", "DESIGN.md 4/C12"),
 "C13": ("Reset completeness for decompressor/inflate, gzip.Reader, zlib.reader with the same machinery, plus: a Resetter that ignores its dictionary is only called with nil, and nested inflaters and the private read-ahead buffer are reset or replaced on every success path. Observability of stale table/history contents is C03's concern. (*bufio.Reader).Reset is applied only to a field assigned nowhere but from bufio.NewReader* (R13.4).",
         "same as C12.",
         "interprocedural field-effect summaries + barrier reachability; call-site argument check over type-flow-resolved invokes", "DESIGN.md 4/C13"),
 "C17": ("Sufficient condition for non-interference in Go code: no function that can run after initialisation writes memory reachable from a package variable; no reference into a package variable is stored in an instance or returned; no goroutines/sync; assembly stores never use a global base. A struct/array value containing slices, maps or pointers is never copied out of a package variable into an instance (shallow copy). Positive controls prove the zero-expected rules can fire. Equality of outputs under concurrency follows but is not checked.",
         "field-effect summaries are may-write over resolved callees; unresolved calls fail the check; std library internals trusted.",
         "interprocedural write-effect summaries rooted at globals, reference-flow check, census, assembly operand dataflow", "DESIGN.md 4/C17"),
 "C14": ("Error discipline of the three Writer types decided on all paths and both dispatch arms: destination errors are recorded in the sticky field, every destination call sits behind a sticky-nil test, no function below drops a destination error, no second destination call is reachable on a failure edge, and the staging index is reset after every successful hand-over. These are necessary for 'fails without touching the destination again'; buffer-bound safety and stream validity are not decided. Every 'return nil' of an operation is behind the sticky-nil (Close: closed-marker) edge (R14.6); calls delegated to compress/flate.Writer are destination calls like any other. A narrowed buffer is restored on every return path (R14.7); a closed marker kept in the sticky field no longer counts as 'closed' (a destination can fail with that value).",
         "calls leaving the repository (io.Writer.Write, compress/flate.Writer) behave as documented; interface calls are resolved by a type-flow analysis over the repository's own stores.",
         "SSA def-use error tracking with store-to-load forwarding, CFG reachability with edge pruning on error tests, call-graph reachability of destination writes", "DESIGN.md 4/C14"),
 "C15": ("For every call that acquires input in flate/gzip/zlib: on all paths on which its error is a genuine source failure (not nil/EOF/ErrBufferFull) the same value is returned or recorded first, before any other source call, and is not overwritten; Read methods test the sticky error before touching the source. Decode correctness of the bytes returned before the error is not decided. bufio.ErrBufferFull is not exempt: no Peek can exceed bufio's minimum buffer, so that value can only be the source's own error.",
         "bufio.Reader returns its underlying reader's error unchanged (std contract).",
         "SSA error-value tracking with refinement on comparisons against nil/io.EOF/bufio.ErrBufferFull; path search for first event", "DESIGN.md 4/C15"),
 "C16": ("Closed-state discipline decided on all paths: Close leaves a provably non-nil marker on every success path, every compressor call is guarded by the sticky field, closed edge returns nil without destination calls (deflate and gzip), level constants/ranges/delegation mirror compress/flate. Panic freedom in general is not decided. Idempotent Close is required of all three Writers including zlib. Accelerated compressors are built only behind equality edges of the level with 1, 2 or HuffmanOnly (R16.5).",
         "std compress/flate.Writer is itself idempotent on Close (delegated levels); zlib.Writer second Close mirrors std and is not required to be silent.",
         "dominating branch facts on the closed marker, barrier reachability on success paths, constant evaluation through go/types", "DESIGN.md 4/C16"),
}

def main():
    out = subprocess.run(["/verif/bin/fgcheck", "-list"], capture_output=True, text=True).stdout
    rules = {}
    for line in out.splitlines():
        pid, rest = line.split(":", 1)
        rules[pid] = rest.split()
    props = [json.loads(l) for l in open("/verif/properties.jsonl")]
    na_reasons = json.load(open("/verif/tools/not_applicable.json"))
    checks, na = [], []
    for pr in props:
        pid = pr["id"]
        if pid in CLAIMS and pid in rules:
            text, note, tech, ref = CLAIMS[pid]
            checks.append({
                "property_id": pid,
                "quick_cmd": "/verif/run.sh %s quick" % pid,
                "thorough_cmd": "/verif/run.sh %s thorough" % pid,
                "evidence_file": "/verif/evidence/%s.json" % pid,
                "replay_cmd_template": "/verif/bin/fgcheck -root /repo -replay {path}",
                "engine": "fgcheck",
                "level_claimed": {"category": "other", "text": text + " Rules: " + ", ".join(rules[pid]) + ".", "design_ref": ref},
                "level_note": note,
                "technique": "static analysis: " + tech,
            })
        else:
            na.append({"property_id": pid, "reason": na_reasons.get(pid, "check not implemented yet (build in progress; see DESIGN.md)")})
    m = {
        "version": 1,
        "setup_cmd": "cd /verif/checker && GOFLAGS=-mod=vendor GOPROXY=off GOSUMDB=off GOTOOLCHAIN=local CGO_ENABLED=0 go build -o /verif/bin/fgcheck .",
        "hooks": {"guard": "verif", "enable": "no hooks are needed: every check analyses /repo's source as it is (the tag is reserved and unused)",
                  "baseline_off_cmd": "cd /repo && GOFLAGS=-mod=mod GOPROXY=off GOSUMDB=off GOTOOLCHAIN=local go test -vet=off -count=1 ./...",
                  "source_commits": [], "add_only": True},
        "engines": [{"name": "fgcheck", "path": "/verif/checker", "serves_properties": [c["property_id"] for c in checks],
                     "kind_free_text": "repository-specific static analysis over go/types and go/ssa (x/tools v0.29.0, vendored): CFG/dominators, branch-fact refinement, error-value tracking, field-effect summaries, constant/table agreement, and a Plan 9 assembly front end; nothing is executed"}],
        "checks": checks,
        "not_applicable": na,
        "notes": "All claims are level 'other': each check decides named structural clauses that are necessary conditions of the property (see level_claimed.text and DESIGN.md), for all inputs/histories and both dispatch arms at once; none decides the runtime relation itself. Genuine defects found are in /verif/known_findings.json (fixed ones name their commit).",
    }
    json.dump(m, open("/verif/MANIFEST.json", "w"), indent=1)
    print("checks:", [c["property_id"] for c in checks], "not_applicable:", len(na))

main()
